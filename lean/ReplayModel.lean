import ReplayModel.Bytes
import ReplayModel.Bits
import ReplayModel.Codec
