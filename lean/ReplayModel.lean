import ReplayModel.Bytes
import ReplayModel.Bits
import ReplayModel.Codec
import ReplayModel.Defs
import ReplayModel.Frame
import ReplayModel.World
import ReplayModel.Play
import ReplayModel.Generated.Facts
